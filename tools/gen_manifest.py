#!/usr/bin/env python3
"""Regenerate /verif/MANIFEST.json from the table below and validate it."""
import json
import pathlib
import sys

ROOT = pathlib.Path(__file__).resolve().parent.parent

NOTE = ("Static analysis of /repo's current sources (ast -> resolved call "
        "graph -> statement CFG with NORMAL/EXC exits -> reaching "
        "definitions / abstract interpretation); nothing from /repo is "
        "imported or run. CPU configuration (torch branches pruned). "
        "Trusted: CPython statement semantics as modelled, the frozen "
        "tables in sa/specs/, and the library facts of DESIGN.md section "
        "11 (multiprocessing exit codes, h5py open modes, numpy axis "
        "semantics). Necessary conditions only -- a pass does not "
        "establish the behavioural property.")

# id -> (technique, level text, design ref)
CLAIMED = {
    'C01': (
        'value identity on symbolic terms over reaching definitions '
        '(light SSA), CFG must-pass-through, order provenance, alias '
        'check, typed record keys',
        'Decides structural necessary conditions of "one record per cell, '
        'in query order, with every stored level": ids and rows are cut by '
        'the same chunk bounds and the iterators keep the (rows, r0, r1) '
        'protocol; results are written back through the selecting index; '
        're_order_blob is applied on every return and takes its order from '
        'the query file; back-fill and the embedded tree use the stored '
        'taxonomy while marker cache, election and marker report share one '
        'tree version; inferred records are flagged copies without '
        'runner-up fields; no level-keyed record is subscripted with a '
        'possibly-None level. Does not decide that assignments form a '
        'root-to-leaf path nor totality beyond the None-key rule.',
        'DESIGN.md section 5, C01'),
    'C02': (
        'idiom check of the draw, value identity on symbolic terms, '
        'backward data slices (role typing of the marker cache, leaf '
        'provenance), typestate, axis-role type checking of the numeric '
        'kernel',
        'Decides structural necessary conditions of the vote being '
        'computed on the right numbers: the marker subset is drawn without '
        'replacement; one subset cuts the columns of both blocks; columns '
        'are paired by name and the identity of the two gene lists is '
        'asserted; only leaves under the parent compete; normalisation '
        'precedes gene selection; in the kernel, means and norms run along '
        'genes, the product contracts genes with genes, the arg-max runs '
        'over reference rows per cell, votes are indexed (cell, reference '
        'row), candidates are ranked per cell. Subset size, vote shares '
        'and correlation means are values and are not decided.',
        'DESIGN.md section 5, C02'),
    'C03': (
        'value identity on symbolic terms over reaching definitions, '
        'backward data slices, constant folding of the child-count test, '
        'loop-shape checks (initialisation, multiply-before-store, '
        'iteration order)',
        'Decides the structural part of each clause of the arithmetic '
        'contract, not the numbers: the vote share divides the votes '
        'gathered by the ranking by the very parameter that bounds the '
        'vote loop of tally_votes; the mean correlation divides the '
        'gathered sums by where(votes > 0, votes, 1); candidates are '
        'ranked per cell in decreasing votes, cut to min(requested, '
        'candidates), runners-up are columns 1..n-1; duplicate candidate '
        'names are aggregated before ranking; a runner-up tuple is (name, '
        'votes > 0, mean correlation, share) of one column and records '
        'keep the tuples with votes through one filter; a single-child '
        'parent gets 1.0 / None / None and correlations are inherited '
        'only under an `is None` test; the aggregate probability starts '
        'at 1.0 per cell and is multiplied and stored level by level from '
        'the top; inferred levels are flagged copies without runner-up '
        'fields. Vote counts, ranges of correlations and sums of shares '
        'are values and are not decided: a pass does not establish the '
        'contract.',
        'DESIGN.md section 6 (C03) and section 15'),
    'C04': (
        'information-flow (order / value taint) abstract interpretation '
        'over the CFG with function summaries; seed provenance; merge-'
        'order provenance; def-use closure of the worker count',
        'Decides that no hash-order, schedule-order or directory-listing-'
        'order dependent value reaches a persistent write or the result '
        'of a stage API function, within the stated abstraction (nesting '
        'one level, flows cut at files, constant-key dicts and returned '
        'tuples field-sensitive), with each excepted source listed and '
        'justified; that every RNG is seeded from configuration or from a '
        'draw on the parent generator made in dispatch order before the '
        'worker starts; that per-worker files are merged in program or '
        'sorted-key order; and that the worker count influences only the '
        'chunk size and the pool-occupancy test. Floating-point summation '
        'order and third-party determinism are assumed.',
        'DESIGN.md section 5, C04'),
    'C05': (
        'dispatch folding by conditional constant propagation, value '
        'identity on symbolic terms (cursor rule), sign analysis over '
        'reaching definitions',
        'Decides: every encoding (array/csr/csc) reaches a non-raising '
        'arm in each of the seven encoding dispatchers and the row '
        'iterator selects a different arm for each; both row iterators '
        'cut, report and advance by the same bounds and stop at n_rows; '
        'no budget-, division- or rounding-derived range step / slice '
        'stride, and no count-derived HDF5 chunk extent, in the anchored '
        'files can be zero, and chunk extents are bounded by their own '
        'axis. Value-exactness of the reads (index arithmetic) is not '
        'decided.',
        'DESIGN.md section 5, C05'),
    'C06': (
        'axis-role typing (non-interference) of the numeric kernel plus '
        'the index identities of C01',
        'Decides that the cell axis is only ever mapped over in '
        'normalisation, correlation, arg-max, vote tally, aggregation and '
        'ranking (no reduction, sort, contraction or non-identity gather '
        'along it), that rows and columns are selected by the caller\'s '
        'index / by name only, and that rows are selected, labelled and '
        'written back through one index: output row i depends on input row '
        'i, the marker subsets and the reference only. Rounding effects '
        'of BLAS blocking are not decided.',
        'DESIGN.md section 5, C06'),
    'C07': (
        'constant propagation under normalization == raw + must-pass-'
        'through, R-ARMS, typestate on CellByGeneMatrix, backward data '
        'slices (columns by name, cache roles)',
        'Decides: raw input is probed for negative values on every path '
        'to the election and a negative minimum raises with or without a '
        'log; no matrix is converted to log2(CPM+1) after being '
        'down-selected by gene and the class enforces this itself; every '
        'chunk is reduced to the named query markers before dispatch; '
        'query columns are selected through the matrix\'s own name map '
        'and the cache is written and read in matching index spaces. '
        'Scale invariance and raw == pre-normalised are algebraic and not '
        'decided.',
        'DESIGN.md section 5, C07'),
    'C08': (
        'value identity on symbolic terms, role typing by backward data '
        'slices, R-ARMS, raise-under-condition, predicate folding by '
        'constant propagation',
        'Decides: the marker report is read from the very cache the '
        'election used and the builder wrote; cache writer and readers '
        'agree on index spaces and co-permute the two position arrays; '
        'the identity of the selected gene lists is asserted; a root '
        'without usable markers, a marker unknown to the reference and a '
        'query sharing no marker raise with or without a log; single-child '
        'parents are exempt in all four consumers (folded at n=1 and n=2); '
        'the ancestor patch is restricted to query genes. The order in '
        'which ancestors are consulted is not decided.',
        'DESIGN.md section 5, C08'),
    'C09': (
        'schema agreement of sibling producers, CFG must-pass in merge '
        'loops, symbolic-term check of additive form and reduction axes, '
        'guard dominance',
        'Decides: the per-chunk result, the worker buffer and the output '
        'file agree on the statistics key table and the readers\' '
        'required datasets are written; every merge loop updates every '
        'key it iterates; each statistic is the cell count or a cell-axis '
        'sum of an element-wise expression and CPM totals are taken per '
        'cell, so the result is additive over any split of the cells; '
        'unknown cells are skipped before any indexed use and the '
        'sentinel is not a valid row; the taxonomy dataset is written '
        'after the numeric data. The numbers, thresholds, truncation and '
        'merge_precompute_files row arithmetic are not decided.',
        'DESIGN.md section 5, C09'),
    'C10': (
        'CFG must-call, encapsulation (mutation through aliases decided by '
        'symbolic expansion, transitive purity of helpers), intra-package '
        'escape analysis, guard/raise discipline',
        'Decides: no TaxonomyTree exists whose stored data did not pass '
        'the validator (validated on every constructor path, private deep '
        'copy, no back door, state assigned only in __init__, every '
        'factory/transform goes through the constructor); trees are '
        'immutable after construction (no method or helper mutates '
        'internal state or an uncopied part of it; no accessor leaks '
        'mutable state to a caller that mutates it); every message-'
        'building branch of the validator raises and each mandated check '
        '(parent exists, child exists, single parent, cell in one leaf) is '
        'present as a raising guard. Whether those checks suffice, and the '
        'algebra of leaf pairs / inverse queries, are not decided.',
        'DESIGN.md section 5, C10'),
    'C13': (
        'sign analysis, value identity on symbolic terms (range / slice / '
        'piece list), freshness provenance, dispatch folding',
        'Decides: no zero step / zero or oversized chunk extent in the '
        'transposition and reshaping files for counts the domain allows '
        'to be 0; the parallel transposition hands consecutive disjoint '
        'sub-ranges of one range to workers that each get a fresh file, '
        'and joins the pieces in dispatch order; both encoding '
        'dispatchers of anndata_utils are total. Pointer arithmetic of '
        'the fill pass and merges is not decided.',
        'DESIGN.md section 5, C13'),
    'C14': (
        'CFG acquire/release pairing, exit-code operator check, handler '
        're-raise check, dominance, HDF5 schema comparison',
        'Decides, for every worker spawn site of the pipeline, that a '
        'started worker is drained on every normal path by a routine that '
        'raises on every non-zero exit code; that neither workers (to call '
        'depth 3) nor the run wrapper swallow failures; that success '
        'message, CSV and result records are dominated by the normal '
        'return of the mapping; that blob_to_hdf5 cannot write results '
        'when they are absent; and that no stage puts at its output '
        'location, before its last drain, everything its consumer requires. '
        'Structural necessary conditions of the fault-injection property, '
        'checked on all paths rather than on sampled crash points.',
        'DESIGN.md section 5, C14'),
    'C15': (
        'record-key and HDF5 dataset schema extraction, field-map '
        'inversion through symbolic expansion, constant relations, '
        'dominance',
        'Decides: every per-level record key consumed by the dataframe / '
        'CSV / HDF5 writers is produced upstream; every dataset the HDF5 '
        'reader needs is written; reader and writer relate dataset and '
        'record key by mutually inverse maps; the padding constant '
        'satisfies the reader\'s stop test and index 0 does not; runner-up '
        'fields are restored only for directly assigned levels; the three '
        'runner-up lists share one filter; n_assignments is config '
        'n_runners_up + 1; CSV rows come after comment lines with '
        'metadata name, hierarchy and version, with four decimals and the '
        'documented confidence key. CSV quoting, name-table translation '
        'and float round-trip equality are not decided.',
        'DESIGN.md section 5, C15'),
    'C16': (
        'interprocedural path-effect analysis, freshness provenance of '
        'helper arguments, dominance / reachability of rejection points, '
        'constant propagation under assumptions, R-ARMS contradiction '
        'rule, value identity',
        'Decides: validation has no write/remove effect on its input and '
        'every mutating helper acts on the mkstemp scratch copy; the '
        'output location is written only by the final copy of that '
        'scratch file, after which nothing can reject the input; nothing '
        'is written and None returned when nothing needs changing, else '
        'the output path is returned; log/no-log arms agree on raising '
        'and the three censuses raise; integrality test, min/max and copy '
        'use the requested layer and the rounding dtype comes from that '
        'min/max; renaming and mapped-gene count reach the file. Rounding '
        'distance, dtype width at boundaries, the Ensembl pattern and '
        'placeholder uniqueness are not decided.',
        'DESIGN.md section 5, C16'),
    'C17': (
        'value provenance on symbolic terms (versions of the rebound tree '
        'variable), dominance guard with sibling cross-check',
        'Decides: after reduction (drop_level / flatten) only the reduced '
        'tree reaches marker reconciliation, election and marker '
        'reporting, the election reads statistics through the tree it was '
        'given, while back-fill and embedded metadata use the stored '
        'tree; every pipeline call drop_level(<configured level>) is '
        'dominated by a membership test in the receiver\'s hierarchy '
        '(siblings cross-checked); flattening rebinds tree and marker '
        'table together to the sorted union of all groups. Equality of '
        'the results of two runs is not decided.',
        'DESIGN.md section 5, C17'),
    'C18': (
        'HDF5 schema extraction per (function, path/handle) with callee '
        'and worker closure; required-reads subset of writes; name '
        'provenance on symbolic terms',
        'Decides the schema part of stage composition: for the '
        'statistics file, the reference-marker file, the p-value mask and '
        'the per-run marker cache every dataset a consuming stage '
        'requires is written by the producing stage; gene names in '
        'marker files derive from the statistics file, cluster rows are '
        'looked up in cluster_to_row, and extra top-level keys of marker '
        'lookups are stripped by the mapper. The centroid self-mapping '
        'statement (numeric) is not decided.',
        'DESIGN.md section 5, C18'),
    'C19': (
        'interprocedural path-effect analysis seeded from the argschema '
        'declarations, CFG acquire/release pairing with ownership transfer '
        'over the call graph, freshness provenance',
        'Decides: no CLI stage (with callees and worker targets) has a '
        'write/remove effect on a path its schema declares as input (the '
        'documented obsm write excepted) and every write lands on a '
        'declared output or in scratch space; every mkdtemp/mkstemp_clean '
        'acquisition is released on every normal path of every stage and '
        'on every path (following definite failure edges) of a mapping '
        'run, in its frame, by an owner object or by the calling frame '
        'that owns the parent directory; only freshly created directories '
        'are listed or given fixed-name files; per-worker output '
        'locations are distinct per dispatch. OS-level concurrency and '
        'the content of the appended log file are not decided.',
        'DESIGN.md section 5, C19'),
    'C20': (
        'constant propagation under the cloud_safe assumption + reaching '
        'definitions (must-be-sanitised), path-effect-aware message lint '
        'over the call-graph closure of run_mapping',
        'Decides: under the cloud-safe flag every value stored as config / '
        'log of the output and every line written by write_log is a '
        'result of sanitize_paths, the two directory keys are removed, the '
        'recorded module is package-relative, the sanitiser recurses into '
        'dicts and lists; and every repo-authored message in functions '
        'reachable from run_mapping presents a path-valued expression as '
        'its own word or by name only, the forms the sanitiser\'s '
        'tokeniser recognises (one documented, unreachable exception). '
        'Third-party message text and the correctness of is_exposed are '
        'not decided.',
        'DESIGN.md section 5, C20'),
    'C11': (
        'value identity on symbolic terms over reaching definitions, '
        'polynomial / rational normal forms for arithmetic identities, '
        'CFG must-pass-through for guards, sibling agreement of the two '
        'marker routes, parameter forwarding along the call chain',
        'Decides the structural part of each clause, not the numbers: the '
        'Welch statistic is (mean1 - mean2) / sqrt(var1/n1 + var2/n2) and '
        'the degrees of freedom the Welch-Satterthwaite quotient (compared '
        'as rational functions); the p-value is two-sided with non-finite '
        'CDF values replaced by 0.5; Holm multiplies the k-th smallest of '
        'm p-values by m - k + 1 (m including the hypotheses the '
        'restricted variant leaves out), takes the running maximum, puts '
        'the values back through the sorting permutation and caps at 1; '
        'both routes skip pairs with a cluster of fewer than two cells; '
        'validity is (corrected p < the threshold they were corrected '
        'for) AND penetrance; direction comes from the same comparison of '
        'the two means in both routes and the up / down sets are '
        'complementary within the valid set; strict thresholds use >, '
        'floors <, floors are applied last; a gene list masks both '
        'routes; the gene-major table is the on-disk transpose of the '
        'pair-major table of the same direction; thresholds are forwarded '
        'at every call. Summary statistics, penetrance fractions and the '
        'resulting marker sets are values and are not decided: a pass '
        'does not establish soundness or completeness. Independence of '
        'worker count and memory budget is decided under C04.',
        'DESIGN.md section 5 (C11) and section 6'),
    'C12': (
        'CFG must-pass-through of the exits of the greedy loop, value '
        'identity on symbolic terms, loop-coverage, provenance of the '
        'table and pair list handed to the selection, parameter forwarding',
        'Decides the structural part of each clause, not the terminal '
        'state of the greedy loop for a given table: the loop leaves only '
        'when no gene has utility left or every (pair, direction) slot is '
        'filled, both tested after the state update of the same turn, and '
        'every other turn selects a gene; a slot is declared filled only '
        'when it holds the target where both directions could reach it, '
        'when it holds every marker of its census, or when the pair holds '
        'twice the target; a selected gene is struck from the utility, '
        'recorded, named by its own index and never selected again; pairs '
        'with at most the target number of markers are exhausted up '
        'front; selection runs on the table thinned to the query genes '
        'and on exactly the pairs leaves_to_compare lists for the parent; '
        'up / down markers are counted in the columns the bookkeeping '
        'reads; a parent without pairs gets the empty list; per-parent '
        'overrides reach that parent\'s worker. Whether a given marker '
        'table ends up covered is a fact about values and is not '
        'decided. Independence of worker count is decided under C04.',
        'DESIGN.md section 5 (C12) and section 6'),
}

NOT_APPLICABLE = {
}

PENDING_REASON = ('static check designed (DESIGN.md section 5) but not yet '
                  'built in this revision; not claimed until it is')

ALL = ['C%02d' % i for i in range(1, 21)]


# rules added after the seeded-change rounds (DESIGN.md section 15):
# id -> (technique addition, level-text addition)
EXTRA = {
    'C02': ('capacity provenance of the vote counter; provenance of the '
            'label list indexed by the ranking; None-test guard of the '
            'correlation inheritance; zip lock-step; parameter forwarding along the call chain; sign analysis of the centroid denominators; settings not rebound; capacity of the aggregated vote totals; polynomial normal form of the kernel inputs; index provenance of the vote aggregation; accumulator type of the row totals; symbolic identity of forwarded configuration values',
            'Also decides: the integer type of the vote counter is sized '
            'from the iteration count of the loop that increments it; the '
            'label list the ranking is translated with is the caller\'s or '
            'the one returned with the aggregated votes; the average '
            'correlation of a voted level is replaced only under an `is '
            'None` test; neighbour and correlation lists are zipped in '
            'lock-step; zero norms are replaced on a test of the norm. Settings the property depends on are bound at every call whose callee would otherwise fall back to a default. The centroids voted on divide by a cell count floored at one. A run setting (iteration count, factor) is never replaced on a condition inside the pipeline. Aggregated vote totals kept in a chosen integer type are sized from a sum of the summands. Kernel inputs are (data - row mean) / sqrt(sum((data - row mean)^2)), compared as polynomials (R-ARITH/pearson). Aggregate_votes reads the vote table at positions that do not derive from the correlation table (R-PROV/votes-where-cast). Row totals are accumulated in a widened type and the CPM formula of C07 is shared; bootstrap_iteration reaches the election as configured (R-FWD/config-as-requested).'),
    'C04': ('shared random stream modelled as an order-sensitive '
            'accumulator; parameter forwarding along the call chain; census of worker-count special cases; kind agreement of chosen integer types in the worker code; order-dependent overwrites in the taint engine; frozen-order labels and tree-constructor sink in the taint engine; symbolic identity of forwarded configuration values; binary search modelled as order-sensitive',
            'Also: a draw from a shared generator inside a loop whose '
            'visiting order carries an order label yields a labelled '
            'value; key order of nested dicts is tracked; numeric '
            'accumulation in a labelled visiting order (also inside a '
            'callee, also through lists of lists) is a labelled value; '
            'selecting a loop element under a test in a labelled loop '
            'labels the selection. Settings the property depends on are bound at every call whose callee would otherwise fall back to a default. The worker count is tested against a constant only at the two confirmed serial-or-parallel sites. An integer type a worker chooses from its chunk is sized from the largest stored value when it holds values and from the number of entries when it holds running counts. The taint engine labels a store into a table that outlives a loop with labelled visiting order when the position is not given by the loop element (order-dependent overwrite); writes through an HDF5 handle opened for writing are sinks. A list whose order was frozen from a set must be sorted before a TaxonomyTree is built from it (taint: frozen order); n_processors and chunk_size reach the election as configured. Positions returned by a binary search depend on the arrangement of the array searched (taint).'),
    'C05': ('write-cursor discipline, loop-coverage must-pass, exact '
            'tiling of chunked loops, index-space typing of numpy code; permutation pairing of sorted reads; parameter forwarding along the call chain; request-order dependence of the readers; buffer-window use; sibling agreement of the returns of range readers; placement by column index; member-kind agreement of borrowed element types; order-free summaries of a sorted request; extent provenance of tiling loops over several arrays',
            'Also decides: write cursors of the assembly loops are used, '
            'advanced and recorded in every iteration; chunked loops tile '
            'their axis (window = step, clamp = bound, step and bound on '
            'the same axis); in the transposition, slices and gathers are '
            'applied in the index space they were computed in; pointer '
            'values are never scatter positions. Rows read in sorted order are put back with the matching permutation, once, and before every return. Settings the property depends on are bound at every call whose callee would otherwise fall back to a default. A reader answers from the requested row list itself, not only from its sorted / merged form. A re-used read buffer is consumed through the part just filled. CSR range readers return re-based pointers on every path and densify by column index. An array allocated with another array\'s element type is used as the same kind of sparse-matrix member (values vs positions). Single elements and the length of a request the function sorts are order-free summaries (R-PERM/request-order). A tiling loop over several arrays takes its extent from the array of the current turn (R-TILE/extent-of-the-array).'),
    'C07': ('ordering-key provenance; column-gather detection on symbolic '
            'terms; parameter forwarding along the call chain; dtype idioms of the normalisation; integer-width rule (shared with C16); column selection by name; rational normal form of the CPM conversion; symbolic provenance of the row chunk size; symbolic identity of forwarded configuration values; accumulator type of the row totals; rounding quotients in the whole-axis rule',
            'Also decides: no ordering step on the way to the per-parent '
            'index arrays of the marker cache depends on query positions; '
            'the array normalised in the chunk loops has not been cut by '
            'column; the CPM divisor replaces zero totals only. Settings the property depends on are bound at every call whose callee would otherwise fall back to a default. (in particular the declared normalization). Normalised values are not cast to, or stored in place into, the element type of the raw counts. The integer type chosen by validation is judged from the np.round-ed extremes against both bounds of the type. convert_to_cpm returns 10^6 * data / row total on every path and both conversions take log2 of 1 + that (R-ARITH/cpm). The chunk size handed to the row readers does not depend on the number of gene columns (R-PROV/chunking-independent-of-genes). The declared normalization reaches the election exactly as configured (R-FWD/config-as-requested); row totals are accumulated in a widened type (R-CAP/row-total-accumulator). Rounding quotients count whole windows only (R-TILE/whole-axis).'),
    'C08': ('iteration-order provenance of the in-place patching loop; index capacity typing; parameter forwarding along the call chain; guard census of empty-list rejections; column selection by name, in the order asked for; single key expression of the cache group read for a parent; constant propagation over map_to_ensembl for the query name list; symbolic identity of forwarded configuration values; iteration order of the ancestor patching loop; element type of cache positions; node identity (rule of C10)',
            'Also decides: parents are patched deepest first; the '
            'unknown-to-reference test is made on the unfiltered marker '
            'table. Gene positions stored with an explicitly chosen integer type are sized from the list they point into. Settings the property depends on are bound at every call whose callee would otherwise fall back to a default. A rejection for an empty marker list also looks at the number of children. Marker columns are taken from the query by a name-derived fancy index. The marker positions used for a parent are read, on every path, from the cache group keyed by that parent. Without a mapping the query gene names are the var index as read (R-PROV/query-names-as-in-file); min_markers reaches the cache builder as configured. Ancestor lists are added nearest first (R-PROV/ancestors-nearest-first). Positions-as-stored (with C01); the child-to-parent table is keyed per level (node identity, rule of C10).'),
    'C09': ('loop-coverage must-pass, merge initial value, guard form, '
            'exact tiling; key-space agreement of the dataset tables; parameter forwarding along the call chain; dtype idioms of the statistics; row-position provenance (rule of C10); threshold polynomials of the counting statistics; whole-package edit census of values handed out by tree accessors; rational normal form of moments and CPM; pointer-scatter idiom (rule of C05); index-space agreement of label positions and chunk rows; provenance of the list the output rows are numbered from; provenance of the chunking extent',
            'Also decides: every chunk reaches _process_chunk; merged '
            'tables start from zeros; files are compared by gene sequence '
            'before column-wise addition; chunk windows tile the rows; '
            'per-file state of a worker is refreshed on a test of the '
            'file; files merged by position are compared on their '
            'complete numbering tables. The ABC front end keys its dataset tables by the label as given. Settings the property depends on are bound at every call whose callee would otherwise fall back to a default. Sums and CPM denominators are not cast back to the element type of the raw counts. Rows a tree built from the reference file assigns to leaves are file positions. gt0 / gt1 / ge1 are column counts above 0, above 1 and above 1 - eps. No user of a tree accessor that hands out the tree\'s own container edits it in place. Mean and variance of a node are S / N and (Q - S^2/N)/(N - 1) of the summed statistics (R-ARITH/moments, rule of C11); counts per million are 10^6 * data / row total (R-ARITH/cpm, rule of C07). The sparse readers do not place values by pointer scatter (rule of C05); positions found in the label array of a chunk are positions of the chunk\'s rows (R-SPACE/chunk-row-positions). Output rows are numbered from all leaves of the tree (R-COVER/row-per-leaf). The rows chunked are all rows of the file (R-PROV/row-extent).'),
    'C10': ('loop-coverage must-pass in the tree builder; must-derive of the leaf pairs; row-position provenance of the h5ad tree builder; unique-insert guard of the release reader; memo keys of module-level caches; sentinel-code gather idiom; truthy-position idiom extended to tables of positions; coercion-free validator predicates; values stored into cached locals',
            'Also decides: the builder records every parent-child link of '
            'every row before validation (no early exit); tables filled '
            'in loops over the levels are keyed by (level, label); memo '
            'keys are complete; zipped lists are in lock-step; the '
            'release term-table reader records every row. leaves_to_compare answers through get_all_leaf_pairs or a short-cut tested on the parent\'s own children. The rows numbered when a tree is built from an h5ad file are the obs rows as read. Every cell entered into the data-release cell table was first found absent from the whole table. A cache held at module level is keyed by everything its values are computed from. Gathers by pandas category codes are masked on the sign of the codes (R-IDIOM/sentinel-code-gather). A column number fetched with .get() is not tested for truth (R-IDIOM/truthy-position). The validator compares names as stored, without coercion (R-EXH/validator-checks). What is put into a local that is then cached belongs to the cached value (R-MEMO/key-complete).'),
    'C13': ('write-cursor discipline, index-space typing, exact tiling; permutation pairing of sorted reads; memo-key completeness of cached readers; HDF5 name typestate; store-advances rule; inverse permutation on every path; widening of index arithmetic; batch-search discipline; re-basing of copied pointer windows',
            'Also decides: cursor discipline of the join / amalgamation '
            'loops, index spaces of the transposition, tiling of all '
            'chunked loops in the anchored modules. Sorted row reads are un-sorted before every return. A cached reader is keyed by everything it was built from; no HDF5 name is created twice in a group. A slice store in a loop whose source changes moves with the loop. Every return after the sorting of a request passes through a use of the permutation or its inverse. Index arrays are widened before they are multiplied by a size (R-CAP/index-arithmetic-widened); batch searches record before they stop (R-COVER/batch-search). Pointer windows are re-based when copied (R-SAMEVAL/pointer-window-rebased).'),
    'C15': ('producer/consumer agreement of CSV column names, '
            'loop-coverage; shared-mutable idiom; memo-key completeness of name look-ups; provenance of the embedded marker table; writer census of the directly_assigned flag; agreement of the keys the HDF5 writer requires with what the caller leaves in the blob; neutral datasets of the codec; edit census of the live configuration; reaching-definition alias classes of records in the output writers; re-order rule of C01; symbolic identity of n_assignments (rules of C03)',
            'Also decides: the confidence-column rename spells names as '
            'blob_to_df builds them; every cell gets a CSV row; name '
            'lookups are keyed by (level, label); the CSV is written '
            'with the stored tree. No per-level table is built from one shared mutable object. Readable names memoised on the tree are keyed by level as well as label. The embedded marker table is enumerated from the tree searched. The flag the HDF5 output stores once per level is written uniformly for all cells of a level. Every key whose absence suppresses the HDF5 results is stored by the mapping step and still in the blob when the writer is called; no record key is restored from a dataset the writer fills from nothing. The live configuration is not edited after its copy for the record was taken (R-SAMEVAL/config-as-recorded). The writers do not edit the records (R-ALIAS/records-read-only); the re-order rule of C01 is shared. The election keeps exactly the configured number of candidates (rules of C03), which is what the HDF5 writer sizes its arrays from.'),
    'C16': ('exact tiling of the scanning loops, lookup provenance; must-pass-through of the mapper call; parameter forwarding along the call chain; abs-of-extremum idiom; HDF5 name typestate; integer-width rule; regex-AST check of the Ensembl pattern; content-independence of piecewise copies; must-pass-through of the validation call; extent provenance of tiling loops over several arrays',
            'Also decides: min/max, integrality and rounding scans tile '
            'their matrix exactly; gene identifiers are looked up as '
            'given and clipped afterwards; every window of a rounding '
            'loop is written. Every verdict of the gene renaming step is given after the mapper was consulted. Settings the property depends on are bound at every call whose callee would otherwise fall back to a default. Integrality tests take the largest absolute deviation; no HDF5 name is created twice in a group (finding F8). The integer type is chosen from the np.round-ed extremes against both bounds of the type. The Ensembl pattern has a literal dot as version separator and is applied with fullmatch. Piecewise copies are not filtered by the content just read (R-COVER/copy-not-filtered-by-content). Every return of validate_h5ad follows the call of _validate_h5ad and returns its verdict (R-MUST/validation-runs). A tiling loop over several arrays takes its extent from the array of the current turn (R-TILE/extent-of-the-array).'),
    'C17': ('back-fill provenance (shared with C01); parameter forwarding along the call chain; tree / parent-list agreement; superset tolerance of per-level options; HDF5 codec field map (rule of C15); provenance of the arguments of tree queries in the marker reconciliation; reaching definitions of the table the flatten union walks; agreement of validator-inspected keys with the reducers',
            'Also decides: the dropped level is back-filled through the '
            'parent table of that level; node tables are keyed by (level, '
            'label); zipped lists are in lock-step. Settings the property depends on are bound at every call whose callee would otherwise fall back to a default. A selection call receives parents listed from the very tree it is given. Per-level options written for the full taxonomy are not rejected for naming a dropped level. The HDF5 writer stores each per-level field as it finds it in the records and does not derive one from the others over the output hierarchy. The run\'s tree is never asked about a node named by the marker table (R-PROV/tree-asked-about-its-own-nodes). The flatten union runs over the marker table as loaded (R-COVER/flatten-union). Keys the tree validator inspects are maintained by flatten and drop_level (R-AGREE/validator-vs-reducers).'),
    'C18': ('sign analysis of cell-count denominators; merge rules shared '
            'with C09; parameter forwarding along the call chain; gene-list rule shared with C11; tree-version provenance (rule of C01); node identity of the tree code (rule of C10); rational normal form of the mean profile; sentinel and row-position rules (shared with C09); axis typing of the election (shared); index-space typing of the transposition (rule of C13)',
            'Also decides: no division by a possibly-zero cell count; '
            'worker buffers are each added once. Settings the property depends on are bound at every call whose callee would otherwise fall back to a default. The gene list a later stage hands to the reference-marker stage becomes positions of the reference gene table. Levels not voted on are inferred from the tree as stored in the reference file. The tree code never files a node under its label alone. The mean profile of a node is S / N of the summed statistics (R-ARITH/moments, rule of C11). The sentinel / row-position rules of C09 are shared. The axis typing of the election (leaf axis vs type axis) is shared. The index-space typing of the on-disk transposition (rule of C13) is shared.'),
    'C19': ('library-level freshness of listed directories and scratch '
            'file names; parameter forwarding along the call chain; existence-test order of the statistics-file search; creating write among the writes of an output; finaliser must-pass; must-pass of stale-output removal; census of directory creations in worker code and under scratch parameters; dominance of creating opens over appending opens',
            'Also decides, per function: a listed directory was created '
            'under a unique name by the lister (or handed over whole); no '
            'predictable file name directly under a scratch parameter. Settings the property depends on are bound at every call whose callee would otherwise fall back to a default. (two documented exceptions where a callee creates its own scratch directory). The recorded statistics path is tried before a same-named file beside the marker file. An output file that is appended to is first created or replaced by the stage. Objects that own a scratch directory release it in their finaliser on every normally returning path. Where a validated file of an earlier run is cleared, every normally returning path either writes the output or removes what was there. No directory is created by mkdir / makedirs in worker code or under a scratch parameter (R-FRESH/directories-only-by-mkdtemp). An append to an output file follows its creation on every path (R-FRESH/append-follows-create).'),
    'C20': ('value identity inside the sanitiser; ancestor walk of the '
            'exposure test; exception rendering of path-bearing messages; parameter forwarding along the call chain; module path relative on every path; use census of path-bearing strings; file-object names treated as paths; interprocedural propagation of path-valued arguments; census of the early answers of the exposure test',
            'Also decides: the replaced text is the word as it occurs, '
            'the replacement is a bare or package-relative name, and '
            'is_exposed tests every ancestor. Path-bearing messages are not raised as KeyError (repr-rendered). Settings the property depends on are bound at every call whose callee would otherwise fall back to a default. Every alternative of the recorded module path is relative to the package. A string with a path interpolated into it is only ever a raised or logged message. The .name of an open file object is judged as the path it was opened with. Path-valued arguments make the parameters they are bound to path-valued (propagated to a fixpoint). Is_exposed answers False early only where the walk over the ancestors ends (R-MUST/exposure-walks-ancestors).'),
    'C01': ('must-pass-through of the failing verdicts of the pre-flight reconciliation; single-child exemption (rule of C08); sibling agreement of returned sequences; reaching-definition alias classes of records in the output writers; element type of cache positions used as a fancy index',
            "Also decides: the marker cache / taxonomy reconciliation can fail only after a parent of the run Single-child parents, the root included, are exempt from needing markers wherever the table is validated.'s tree was found without markers. No return of a function in the anchored modules is empty in one position next to positions that carry data while a sibling return fills it (R-AGREE/partially-empty-return). No output writer edits a record reached from the results it was handed (R-ALIAS/records-read-only). No reader of the marker cache uses a position dataset as a fancy index without an integer type (R-ROLE/positions-as-stored)."),
    'C03': ('parameter forwarding along the call chain; vote-counter capacity (rule of C02); capacity of the aggregated vote totals (rule of C02); polynomial identity of the requested number of candidates; falsy-default idiom; order of the two inheritance passes; symbolic identity of n_assignments along the call chain',
            'Settings the property depends on are bound at every call whose callee would otherwise fall back to a default. The vote counter holds as many votes as there are iterations. Aggregated vote totals kept in a chosen integer type are sized from a sum of the summands. The election is asked for exactly n_runners_up + 1 candidates (R-PROV/runners-up-as-requested); no numeric setting is defaulted with `or <number>` (R-IDIOM/falsy-numeric-default). The downward correlation inheritance runs before the upward one (R-ORDER/correlation-inheritance). N_assignments is handed on unchanged along the election call chain; only choose_node clamps it, by the number of vote columns (R-FWD/candidates-unchanged).'),
    'C14': ('parameter forwarding along the call chain; jump-in-finally idiom; handler census around dispatches in the spawner closure',
            'Settings the property depends on are bound at every call whose callee would otherwise fall back to a default. No return / break / continue inside a finally block discards a worker failure. No handler around a dispatch absorbs the drain\'s error (R-HANDLER/dispatch-failure).'),
    'C06': ('cell-axis reduction scan of the glue code; memo-key completeness along the per-cell path; further reducers in the axis typing; pointer terms through array wrappers',
            'Between chunk arrival and kernel the query matrix is never reduced along the cell axis. Memo tables of the election and the taxonomy class are keyed by everything their values are computed from, early-exit form and full access paths included (R-MEMO/key-complete). Np.ptp and further reducers are typed along their axis. Pointer values behind np.asarray / np.array are still pointer values (R-IDIOM/pointer-scatter).'),
    'C11': ('loop coverage of the marker workers; data-slice provenance of '
            'the vectors entering the Holm correction; sign analysis of '
            'chunk extents; contiguity idiom; rational normal form of mean and variance; batch-search discipline of the transposition',
            'Also decides: both marker workers write an entry for every '
            'pair index of their run; the clusters\' full mean / variance '
            'vectors enter the t-test and the Holm correction whatever the '
            'gene list; the gene list is applied whenever one is given; '
            'marker and mask files can be written when a direction has no '
            'entry and for a chunk of a single pair (findings F9, F10). Mean and variance of a node are S / N and (Q - S^2/N)/(N - 1) of the statistics summed over its leaves, compared as rational functions (R-ARITH/moments). The batch search of the on-disk transposition stops only after an end of the batch was recorded (R-COVER/batch-search).'),
    'C12': ('provenance of the pair indices reported to the utility update; index-capacity rules over the re-shaping of the marker table; parameter dependence of sibling returns in selection functions',
            'Also decides: desperate pairs and filled slots are addressed '
            'by the pair\'s index in the marker table '
            '(taxonomy_idx_array[row]), and the column -> sign table is '
            '{0: -1, 1: +1} in either spelling. Index arrays of the re-shaped marker table are not forced into the type of an input array (R-CAP/index-cast-to-input-type). The selection functions compute every output from the selection on every return (R-AGREE/returns-depend-alike).'),
}


# addenda of round 14 (technique, text), appended after EXTRA
EXTRA14 = {
    'C01': ('sample size bounded by the population (rule of C02)',
            'The bootstrap sample size is floored only as far as a guard '
            'on the number of markers allows.'),
    'C02': ('bootstrap settings handed on as received; sample size '
            'bounded by the population',
            'The iteration count and the factors reach the election as '
            'the front end received them; the sample drawn without '
            'replacement never exceeds the markers there are.'),
    'C03': ('HDF5 codec of the confidence fields (rule of C15)',
            'The HDF5 writer stores every confidence field as the record '
            'holds it.'),
    'C04': ('set algebra on key views in the taint engine',
            'The result of `&`, `|`, `-`, `^` on dict key views is a set '
            'and carries a hash-order label.'),
    'C05': ('polynomial identity of span-versus-count contiguity tests, '
            'also in the helpers the anchored code calls',
            'A request is taken for one block from its end points and '
            'length only as last - first == count - 1 of a sorted, '
            'distinct sequence (R-ARITH/span-contiguity).'),
    'C07': ('co-permutation of arrays cut by one window',
            'Indices and values cut by the same pointer window are never '
            'reordered separately (R-PERM/parallel-windows-in-step).'),
    'C08': ('sample size bounded by the population (rule of C02)',
            'A parent with a single usable gene is voted on with that '
            'gene: the sample size is not floored above the population.'),
    'C09': ('reference file list and cell tables handed on as received',
            'The front ends hand the list of reference files and the cell '
            'tables to the summation as they received them '
            '(R-FWD/handed-on-unchanged).'),
    'C10': ('effect census of process-lifetime memos',
            'No function of the tree code that is memoised for the life '
            'of the process reads a file '
            '(R-MEMO/outside-state-not-in-key).'),
    'C11': ('namesake agreement of worker keywords',
            'Each threshold slot of the marker workers is given the '
            'caller\'s value of that name (R-FWD/keyword-not-crossed).'),
    'C13': ('polynomial identity of span-versus-count contiguity tests',
            'A contiguity shortcut decided from the first element, the '
            'last element and the count applies to sorted, distinct '
            'sequences only.'),
    'C17': ('plain sortedness of the election loop on reaching '
            'definitions',
            'The parents of a level are searched in node-name order on '
            'every path, so the reduced tree and a tree that never had '
            'the level consume the shared generator alike '
            '(R-ORDER/elections-in-name-order).'),
    'C18': ('plain sortedness of enumerated node pairs',
            'A writer that enumerates node pairs emits them from a '
            'plainly sorted list, the orientation the readers re-create '
            'with `<` (R-ORDER/pairs-plainly-oriented).'),
    'C20': ('return census of the word-to-path helper',
            'Every word is looked up under its own spelling: the helper '
            'returns Path(word minus quotation marks) on every path '
            '(R-SAMEVAL/word-tested-as-is).'),
}


# addenda of round 15 (technique, text)
EXTRA15 = {
    'C01': ('leaf provenance of the candidates under a parent (rule of '
            'C02)',
            'The candidates compared under a parent are the leaves below '
            'that very node.'),
    'C02': ('order of the ancestor fallback (rule of C08)',
            'A parent with too few markers of its own is patched from its '
            'nearest ancestors first.'),
    'C03': ('rational normal form of the CPM conversion (rule of C07)',
            'The CPM divisor replaces zero totals, so profiles are '
            'finite.'),
    'C04': ('worker-completion label in the taint engine',
            'A list collected as workers finish carries a timing label on '
            'its order; integer sums of extents are exact in any order.'),
    'C06': ('declared normalisation never rebound',
            'How a cell is normalised is what the caller declared, not '
            'decided from a statistic of the whole file.'),
    'C07': ('common provenance of gathered columns and their names',
            'Columns gathered by position and the names they are labelled '
            'with come from one selection '
            '(R-ROLE/columns-and-names-together).'),
    'C09': ('row provenance of the truncation',
            'A statistics file that is collapsed is read through its own '
            'cluster_to_row table (R-PROV/rows-through-file-table).'),
    'C10': ('whole-tree comparison census of the merge',
            'Statistics files are merged only after each tree was '
            'compared with the kept one as a whole '
            '(R-GUARD/one-tree-per-merge).'),
    'C11': ('alias classes of in-place stores',
            'No array is patched through a second name while the first is '
            'read again (R-ALIAS/edited-through-alias).'),
    'C13': ('census of worker-count special cases (rule of C04)',
            'No worker count is singled out for a code path of its own in '
            'the transposition code.'),
    'C16': ('agreement of sibling defaults at dispatch sites',
            'Helpers called in different arms of one dispatch that '
            'disagree on a default are called with it bound '
            '(R-AGREE/sibling-defaults).'),
    'C17': ('dataset provenance of the genes voted on',
            'The genes of an election come from the parent\'s own cache '
            'entry, never from the cache-wide union '
            '(R-PROV/genes-of-this-parent).'),
    'C20': ('conversion census of path interpolations',
            'A path is not written into a message through repr() '
            '(`!r`).'),
}


# addenda of round 16 (technique, text)
EXTRA16 = {
    'C01': ('settings tables may name levels the reduced tree lacks (rule '
            'of C17)',
            'A per-level table validated against the reduced tree may '
            'name the dropped level.'),
    'C03': ('value identity of the election results handed on',
            'What choose_node returns reaches the records element by '
            'element, not re-sorted (R-SAMEVAL/results-as-chosen).'),
    'C04': ('cursor discipline of the functions that join worker pieces',
            'The functions that join the pieces of the workers place '
            'every piece, also an empty one.'),
    'C09': ('row provenance inside the truncation helper',
            'The truncation helper addresses rows only through its '
            'leaf -> row tables (R-PROV/rows-through-row-tables).'),
    'C12': ('kind agreement of whole-array casts',
            'A whole-array cast to a chosen integer type is sized from a '
            'bound of the kind of what the array holds.'),
    'C13': ('linear capacity predicate of the unsigned-type choice',
            'A candidate index type is admitted at most up to its '
            'capacity (R-CAP/fits-predicate).'),
    'C14': ('interrupt and exit handlers on worker paths',
            'A worker does not turn KeyboardInterrupt / SystemExit into a '
            'normal return.'),
    'C15': ('key census of the serialised tree',
            'The tree written into the outputs carries every table the '
            'class consults (R-AGREE/serialised-tree-complete).'),
    'C16': ('must-pass of the rounding helpers',
            'round_x_to_integers never returns normally without having '
            'rounded (R-MUST/rounding-performed).'),
    'C18': ('default-store idiom in merges',
            'Per-file marker tables are merged without storing defaults '
            'over earlier entries (R-COVER/merge-keeps-earlier).'),
}


# addenda of round 17 (technique, text)
EXTRA17 = {
    'C01': ('value identity of the output blob in the front ends',
            'The blob that holds the records is written as computed, '
            'never replaced by a transformed copy of itself.'),
    'C04': ('isinstance edges and recursive calls in the taint engine',
            'A value known to be a set on an isinstance edge is walked in '
            'hash order; recursive cleaners hand their argument\'s order '
            'back.'),
    'C09': ('window rules over the copy helpers the merge reaches',
            'The HDF5 copy helpers the statistics merge reaches cover '
            'every row block (R-TILE/whole-axis over comprehensions).'),
    'C13': ('constant-length windows at re-ordered rows',
            'Row pointers of re-ordered rows are not copied from a source '
            'window of variable length (R-PERM/permuted-row-window).'),
    'C14': ('publish-after-drain judged inside writer-spawner callees',
            'A callee that both moves the file into place and starts '
            'workers is judged as a frame of its own.'),
    'C15': ('key census of the deserialisers',
            'from_str hands the constructor every table that was '
            'serialised.'),
    'C18': ('presence-only reconciliation of the marker cache',
            'The pre-flight reconciliation decides by the presence of a '
            'group, never by its content (R-AGREE/reconcile-by-presence).'),
}


# addenda of round 18 (technique, text)
EXTRA18 = {
    'C02': ('ids and rows of a chunk cut by the same bounds (rule of C01)',
            'The votes recorded under a cell id are the votes on that '
            'cell\'s own row.'),
    'C05': ('extent provenance of converted pointer arrays',
            'A converted sparse group gets a pointer array over the other '
            'axis, never one shaped like the input\'s '
            '(R-AXIS/converted-pointer-extent).'),
    'C11': ('totals of counts in the kind analysis of chosen integer types',
            'Gene indexes are stored in a type sized from the largest '
            'index, not from how many there are.'),
    'C17': ('one-sided reconciliation (rule of C01)',
            'A marker table that holds more than the reduced tree is not '
            'refused.'),
}


def main():
    checks = []
    for pid in ALL:
        if pid not in CLAIMED:
            continue
        tech, text, ref = CLAIMED[pid]
        if pid in EXTRA:
            tech = tech + '; ' + EXTRA[pid][0]
            text = text + ' ' + EXTRA[pid][1]
            ref = ref + ' and section 15'
        if pid in EXTRA18:
            tech = tech + '; ' + EXTRA18[pid][0]
            text = text + ' ' + EXTRA18[pid][1]
            if 'section 15' not in ref:
                ref = ref + ' and section 15'
        if pid in EXTRA17:
            tech = tech + '; ' + EXTRA17[pid][0]
            text = text + ' ' + EXTRA17[pid][1]
            if 'section 15' not in ref:
                ref = ref + ' and section 15'
        if pid in EXTRA16:
            tech = tech + '; ' + EXTRA16[pid][0]
            text = text + ' ' + EXTRA16[pid][1]
            if 'section 15' not in ref:
                ref = ref + ' and section 15'
        if pid in EXTRA15:
            tech = tech + '; ' + EXTRA15[pid][0]
            text = text + ' ' + EXTRA15[pid][1]
            if 'section 15' not in ref:
                ref = ref + ' and section 15'
        if pid in EXTRA14:
            tech = tech + '; ' + EXTRA14[pid][0]
            text = text + ' ' + EXTRA14[pid][1]
            if 'section 15' not in ref:
                ref = ref + ' and section 15'
        if pid not in ('C04', 'C14', 'C19', 'C20'):
            tech = tech + ('; generic structural rules (tiling, cursors, '
                           'memo keys, permutation pairing, dtype and HDF5 '
                           'idioms) over every function of the anchored '
                           'modules')
            text = text + (' Every function of the modules the property is '
                           'anchored in is additionally scanned with the '
                           'generic structural rules (DESIGN.md section '
                           '15, module scan).')
        checks.append({
            'property_id': pid,
            'quick_cmd': f'./check {pid} --tier quick',
            'thorough_cmd': f'./check {pid} --tier thorough',
            'evidence_file': f'/verif/evidence/{pid}.json',
            'replay_cmd_template': f'./check {pid} --replay {{path}}',
            'engine': 'sa',
            'technique': tech,
            'level_claimed': {'category': 'other', 'text': text,
                              'design_ref': ref},
            'level_note': NOTE,
        })
    na = []
    for pid in ALL:
        if pid in CLAIMED:
            continue
        na.append({'property_id': pid,
                   'reason': NOT_APPLICABLE.get(pid, PENDING_REASON)})
    man = {
        'version': 1,
        'setup_cmd': 'true',
        'hooks': {
            'guard': 'CELL_TYPE_MAPPER_VERIF',
            'enable': 'none needed: the checks read source text; no hook '
                      'or instrumentation was added to /repo',
            'baseline_off_cmd':
                'cd /repo && /venv/bin/python -m pytest -ra -q -p '
                'no:cacheprovider --timeout=900 '
                '--continue-on-collection-errors',
            'source_commits': [],
            'add_only': True,
        },
        'engines': [{
            'name': 'sa',
            'path': '/verif/sa',
            'serves_properties': sorted(CLAIMED),
            'kind_free_text': 'repository-specific static analyser: '
                              'program database, call graph, CFG, '
                              'reaching definitions, constant propagation '
                              'under assumptions, path-effect summaries, '
                              'HDF5 schema extraction; rule modules per '
                              'property',
        }],
        'checks': checks,
        'not_applicable': na,
        'notes': 'Technique family: static analysis only. Exit 0 = all '
                 'obligations discharged; exit 1 = VIOLATION line(s); exit '
                 '2 = ANALYSIS-ERROR (anchor definition missing / analysis '
                 'cannot run), never a verdict. Known findings: '
                 '/verif/known_findings.json.',
    }
    out = ROOT / 'MANIFEST.json'
    out.write_text(json.dumps(man, indent=1) + '\n')
    try:
        import jsonschema
        schema = json.loads(
            pathlib.Path('/root/.vp/MANIFEST.schema.json').read_text())
        jsonschema.validate(man, schema)
        print('MANIFEST.json valid;', len(checks), 'checks,', len(na),
              'not applicable')
    except ImportError:
        print('jsonschema not available; wrote without validation')


if __name__ == '__main__':
    sys.exit(main())
