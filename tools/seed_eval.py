#!/venv/bin/python
"""
Evaluate one seeded change delivered under /tmp/seed/<ID>/ (patch.diff,
demo.py, worktree wt with the change applied):

  1. demo with the change   -> must fail
  2. demo without           -> must pass
  3. stable tests with the change (only when --tests) -> all must pass
  4. apply the patch to /repo, run every claimed check (quick), undo

Development helper only; no registered command uses it.
"""
import argparse
import json
import os
import subprocess
import sys
import xml.etree.ElementTree as ET

VERIF = os.path.dirname(os.path.dirname(os.path.abspath(__file__)))
CLAIMED = ['C01', 'C02', 'C03', 'C04', 'C05', 'C06', 'C07', 'C08', 'C09', 'C10',
           'C13', 'C14', 'C15', 'C16', 'C17', 'C18', 'C19', 'C20']


def sh(cmd, **kw):
    return subprocess.run(cmd, shell=True, capture_output=True, text=True,
                          **kw)


def run_demo(d, wt, demo='demo.py'):
    env = dict(os.environ, PYTHONPATH=f'{wt}/src')
    r = subprocess.run(['/venv/bin/python', f'{d}/{demo}'], cwd=d, env=env,
                       capture_output=True, text=True, timeout=1800)
    return r.returncode, (r.stdout + r.stderr)[-600:]


def stable_tests(d, wt):
    base = json.load(open('/root/.vp/BASELINE.json'))
    stable = set(base['stable_pass'])
    junit = f'{d}/junit_eval.xml'
    env = dict(os.environ, PYTHONPATH=f'{wt}/src')
    subprocess.run(
        ['/venv/bin/python', '-m', 'pytest', '-q', '-p', 'no:cacheprovider',
         '--timeout=900', '--continue-on-collection-errors',
         f'--junitxml={junit}'], cwd=wt, env=env, capture_output=True,
        text=True)
    passed = set()
    for tc in ET.parse(junit).getroot().iter('testcase'):
        if not list(tc):
            passed.add(f"{tc.get('classname')}::{tc.get('name')}")
    missing = sorted(stable - passed)
    return len(stable), missing


def main():
    ap = argparse.ArgumentParser()
    ap.add_argument('id')
    ap.add_argument('--dir')
    ap.add_argument('--tests', action='store_true')
    ap.add_argument('--demo', default='demo.py')
    ap.add_argument('--props', default=','.join(CLAIMED))
    ap.add_argument('--skip-checks', action='store_true')
    a = ap.parse_args()
    d = a.dir or f'/tmp/seed/{a.id}'
    wt = f'{d}/wt'
    out = {'id': a.id}
    # patch from the worktree itself (authoritative)
    diff = sh(f'git -C {wt} diff -- src').stdout
    if not diff.strip():
        # worktree clean; apply the delivered patch file
        diff = open(f'{d}/patch.diff').read()
        sh(f'git -C {wt} apply {d}/patch.diff')
    open(f'{d}/patch.eval.diff', 'w').write(diff)
    rc1, o1 = run_demo(d, wt, a.demo)
    out['demo_with_change'] = rc1
    sh(f'git -C {wt} apply -R {d}/patch.eval.diff')
    rc0, o0 = run_demo(d, wt, a.demo)
    sh(f'git -C {wt} apply {d}/patch.eval.diff')
    out['demo_without_change'] = rc0
    print('demo with change   rc', rc1, '|', o1.strip().splitlines()[-1:]
          )
    print('demo without       rc', rc0, '|', o0.strip().splitlines()[-1:])
    if a.tests:
        n, missing = stable_tests(d, wt)
        out['stable'] = n
        out['stable_missing'] = missing
        print('stable tests', n, 'missing', len(missing), missing[:5])
    if a.skip_checks:
        json.dump(out, open(f'{d}/eval.json', 'w'), indent=1)
        return 0
    # checks
    st = sh('git -C /repo status --porcelain').stdout.strip()
    if st:
        print('REFUSING: /repo is dirty', st)
        return 2
    r = sh(f'git -C /repo apply {d}/patch.eval.diff')
    if r.returncode:
        print('patch does not apply to /repo', r.stderr)
        return 2
    fired = {}
    try:
        for p in a.props.split(','):
            r = sh(f'{VERIF}/check {p} --tier quick --no-evidence')
            lines = [l for l in r.stdout.splitlines()
                     if l.startswith(('VIOLATION', 'FAIL', '  FAIL',
                                      'ANALYSIS-ERROR'))
                     or ' FAIL ' in l]
            fired[p] = (r.returncode, lines[:6])
            if r.returncode:
                print(p, 'exit', r.returncode)
                for l in lines[:6]:
                    print('    ', l[:300])
    finally:
        sh('git -C /repo checkout -- .')
    out['checks'] = {p: v[0] for p, v in fired.items()}
    print('fired:', [p for p, v in fired.items() if v[0]])
    json.dump(out, open(f'{d}/eval.json', 'w'), indent=1)
    return 0


if __name__ == '__main__':
    sys.exit(main())
