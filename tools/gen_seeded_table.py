#!/venv/bin/python
"""Rewrite the seeded-changes table of DESIGN.md (between the markers
<!-- SEEDED-TABLE-BEGIN --> and <!-- SEEDED-TABLE-END -->) from
seeded/*/meta.json and seeded/MATRIX.json (written by
tools/seed_matrix.py --all)."""
import json
import pathlib
import re

V = pathlib.Path(__file__).resolve().parent.parent
mat = json.load(open(V / 'seeded' / 'MATRIX.json'))
rows = []
n_first = 0
n_now = 0
for d in sorted((V / 'seeded').iterdir()):
    mp = d / 'meta.json'
    if not mp.is_file():
        continue
    m = json.load(open(mp))
    patch = (d / 'patch.diff').read_text()
    files = sorted(set(re.findall(r'^\+\+\+ b/src/cell_type_mapper/(\S+)',
                                  patch, re.M)))
    first = m.get('checks_firing_at_first_evaluation', [])
    now = mat.get(d.name, {})
    rules = [r for r in now.get('rules', []) if r.startswith('R-')]
    own = m['property']
    if first:
        n_first += 1
    if own in now.get('fired', []):
        n_now += 1
    rows.append('| `%s` | %s | %s | %s | %s | %s |' % (
        d.name, ', '.join(files),
        m['needs_to_manifest'][:150].replace('|', '/'),
        ', '.join(first) or 'none',
        ', '.join(now.get('fired', [])) or ('none (not decided)'
                                            if m.get('not_decided')
                                            else 'none'),
        '; '.join(rules[:3])))
head = ('| seeded change | file(s) | needs | checks firing when first '
        'evaluated | checks firing now | rule(s) |\n'
        '|---|---|---|---|---|---|\n')
summary = (f'\n{len(rows)} changes; {n_first} were reported by some check '
           f'when first evaluated, {n_now} are reported by the check of '
           'their own property now.\n')
block = ('<!-- SEEDED-TABLE-BEGIN -->\n' + head + '\n'.join(rows) + '\n'
         + summary + '<!-- SEEDED-TABLE-END -->')
p = V / 'DESIGN.md'
s = p.read_text()
if 'SEEDED-TABLE-PLACEHOLDER' in s:
    s = s.replace('SEEDED-TABLE-PLACEHOLDER', block)
else:
    s = re.sub(r'<!-- SEEDED-TABLE-BEGIN -->.*<!-- SEEDED-TABLE-END -->',
               lambda _m: block, s, flags=re.S)
p.write_text(s)
print(summary)
